// Package trailing_empty_files: a file with findings of many checkers, followed (in file order) by files that contain
// nothing but a package clause, a comment or an import; analysed by the same checker instances in this order.
package trailing_empty_files

import (
	"flag"
	"regexp"
	"strings"
)

//TODO
func A(xs []int, s string, p *int) int {
	xs = append(xs, 1)
	xs = append(xs, 2)
	_ = *new(int)
	_ = flag.Bool("bad name", false, "")
	_ = regexp.MustCompile(`[0-9]+[0-9]`)
	_ = strings.Compare(s, "a") == 0
	_ = len(xs) >= 0
	_ = s == s
	if p == nil {
		return *p
	}
	switch {
	case true:
	}
	if s != "" {
	} else {
		if s == "x" {
		}
	}
	return 0x1F + 0Xa + 017
}
