package w_new_nolit

func F() complex128 { return *new(complex128) }
