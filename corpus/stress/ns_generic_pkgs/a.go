// Package ns_generic_pkgs: user packages named slices, maps, cmp (generic helper packages of the standard library).
package ns_generic_pkgs

import (
	"stresslib/cmp"
	"stresslib/maps"
	"stresslib/slices"
)

func Calls(name []string, m map[string]int, a, b int) bool {
	_ = cmp.Compare(a, a)
	_ = cmp.Compare(a, b)
	_ = maps.Equal(m, m)
	maps.Copy(m, m)
	_ = slices.Compare(name, name)
	_ = slices.Index(name, "x")
	return slices.Equal(name, name)
}
