// Package generics: type parameters on functions, types, receivers, constraints, instantiations.
package generics

import "sort"

type Number interface {
	~int | ~int64 | ~float64
}

type Pair[K comparable, V any] struct {
	Key K
	Val V
}

func (p Pair[K, V]) Swap() Pair[K, V] { return p }

func (p *Pair[K, V]) Set(k K, v V) { p.Key, p.Val = k, v }

type List[T any] []T

func (l List[T]) Len() int { return len(l) }

func (l List[T]) Each(f func(T)) {
	for _, x := range l {
		f(x)
	}
}

type Tree[T interface{ Less(T) bool }] struct {
	left, right *Tree[T]
	val         T
}

func (t *Tree[T]) Insert(v T) *Tree[T] {
	if t == nil {
		return &Tree[T]{val: v}
	}
	if v.Less(t.val) {
		t.left = t.left.Insert(v)
	} else {
		t.right = t.right.Insert(v)
	}
	return t
}

func Sum[T Number](xs ...T) (total T) {
	for _, x := range xs {
		total += x
	}
	return
}

func Map[T, U any](xs []T, f func(T) U) []U {
	out := make([]U, 0, len(xs))
	for _, x := range xs {
		out = append(out, f(x))
	}
	out = append(out, *new(U))
	return out
}

func Zero[T any]() T { return *new(T) }

func ZeroPtr[T any]() *T { return new(T) }

func SortBy[T any](xs []T, less func(a, b T) bool) {
	sort.Slice(xs, func(i, j int) bool { return less(xs[i], xs[j]) })
}

func Huge[T any](x [1024]T, y Pair[string, [512]T]) {}

func Cmp[T ~int32 | ~int64](x T, y int32) bool { return int32(x) < y }

func Keys[M ~map[K]V, K comparable, V any](m M) []K {
	r := make([]K, 0, len(m))
	for k := range m {
		r = append(r, k)
	}
	return r
}

func Use() {
	_ = Sum(1, 2, 3)
	_ = Sum[float64]()
	_ = Map([]int{1}, func(i int) string { return "" })
	_ = Zero[Pair[string, int]]()
	p := Pair[string, int]{}
	p.Set("a", 1)
	_ = p.Swap()
	var l List[int]
	l.Each(func(int) {})
	var s struct{ f func() List[int] }
	_ = s
	_ = Keys(map[string]int{})
	switch any(p).(type) {
	case Pair[string, int]:
	case *Pair[string, int]:
	}
}
