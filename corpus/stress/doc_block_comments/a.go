// Package doc_block_comments has doc comments written as block comments: one-line, multi-line, indented, with
// non-ASCII text, with malformed deprecation notices on later lines, mixed with // lines.
package doc_block_comments

/* Deprecated: one line block, correct. */
func A() {}

/*
B does things.

DEPRECATED: use A.
*/
func B() {}

/*
C does things.
Deprecated. use A
deprecated: use A
Dеprecated: кириллица — naïve ☺
*/
func C() {}

/* D does things.
   Derpecated: typo
   Note: deprecated
	NOTE: Deprecated: tab indented */
func D() {}

/*
E is
//nolint:foo // whyNoLint inside a block
TODO
FIXME:
*/
func E() {}

// F mixes.
/* deprecated, use A */
// Depreciated: use B
func F() {}

type T struct {
	/*
		X is a field.
		DEPRECATED: use Y
	*/
	X int
	/* Y. */ Y int // trailing
}

/*
V is a variable.

	Deprecated: indented code block
*/
var V int

const (
	/*
	   K. @deprecated
	   @Deprecated use L
	*/
	K = 1
	L = 2 /* Deprecated: trailing block */
)

func G() {
	/*
	   local block comment
	   DEPRECATED: not a doc comment
	*/
	_ = 0 /*x*/ + 1
}

/**/
func H() {}

/*

*/
func I() {}
