// Package odd_legal: legal but unusual shapes reaching index / cast / dereference sites in checkers.
package odd_legal

import (
	"errors"
	"fmt"
	"os"
	"strings"
	"sync"
)

type T struct {
	mu sync.Mutex
	m  map[string][]int
	f  func(int) (int, error)
}

func (t *T) two() (int, error) { return t.f(1) }

func pair() (string, string) { return "", "" }

func triple() (string, string, int) { return "", "", -1 }

func variadic(xs ...int) {}

func Forwarding(t *T) (int, error) {
	fmt.Println(pair())
	_ = strings.Replace(fmt.Sprint(pair()), "a", "b", -1)
	_ = strings.SplitN(triple())
	_ = strings.HasPrefix(pair())
	_ = strings.EqualFold(pair())
	_ = errors.Is(errPair())
	variadic()
	variadic([]int{}...)
	return t.two()
}

func errPair() (error, error) { return nil, nil }

func Returns(t T) (T, int, error) {
	if t.f == nil {
		return t, 0, nil
	}
	n, err := t.f(2)
	return t, n, err
}

func Defer() {
	defer os.Exit(1)
	defer func() { recover() }()
	defer fmt.Println(pair())
	func() {
		defer fmt.Println()
		os.Exit(2)
	}()
}

func Switches(x interface{}, n int) {
	switch y := x.(type) {
	case nil:
	case int, string:
		_ = y
	case interface{}:
	}
	switch x.(type) {
	}
	switch z := n; {
	case z > 1:
	}
	switch {
	default:
	case n > 0 && n > 0:
	}
}

func Labels() {
outer:
	for {
	inner:
		for {
			if false {
				break inner
			}
			continue outer
		}
	}
	goto end
end:
}

func Literals() {
	_ = 0x_1F
	_ = 0o17
	_ = 017
	_ = 0b1
	_ = 1_000
	_ = 0x1p-2
	_ = 1i
	_ = 'a'
	_ = `raw
string`
	_ = [...]int{2: 1}
	_ = map[[2]int]struct{}{{1, 2}: {}}
	_ = []*T{{}, nil}
	_ = (func())(nil)
	_ = (*T)(nil)
	_ = [](func()){}
	_ = struct{ T }{}
}

func Assigns(t *T, xs []int) {
	t.m["a"] = append(t.m["a"], 1)
	t.m["b"] = append(t.m["a"], 1)
	xs, ys := append(xs, 1), append(xs, 2)
	_, _ = xs, ys
	(xs) = append((xs), 1)
	(xs) = append((xs), 2)
	var p *[]int = &xs
	*p = append(*p, 1)
	*p = append(*p, 2)
	xs[0], xs[1] = xs[1], xs[0]
	xs[0]++
	_ = *(&xs)
	_ = **(&p)
}

func Closures() []func() {
	var fs []func()
	for i := 0; i < 3; i++ {
		fs = append(fs, func() { _ = i })
	}
	f := func(a, b int) int { return func(c, d int) int { return c + d }(a, b) }
	_ = f
	g := func(xs ...int) int { return h(xs...) }
	_ = g
	k := func(a int, xs ...int) int { return h2(a, xs...) }
	_ = k
	return fs
}

func h(xs ...int) int         { return 0 }
func h2(a int, xs ...int) int { return 0 }

type (
	A = T
	B A
	C = *B
)

func (b B) Method() {}

func init() {}

func init() { _ = 1 }
