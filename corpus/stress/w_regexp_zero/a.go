package w_regexp_zero

type engine struct{}

func (engine) MustCompile() int { return 0 }

var regexp engine

func F() int { return regexp.MustCompile() }
