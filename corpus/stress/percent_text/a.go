// Package percent_text: user-controlled text (patterns, literals, comments) full of fmt verbs.
package percent_text

import (
	"errors"
	"flag"
	"fmt"
	"path/filepath"
	"regexp"
	"strings"
)

// Deprecated : use %s instead of %d (100%!)
func Old() {}

//nospace %v comment with %[1]d and %!z
func Patterns() {
	regexp.MustCompile(`((?:%[0-9a-f][0-9a-f])+)*`)
	regexp.MustCompile(`(%s+)*`)
	regexp.MustCompile(`(?:%d*)+`)
	regexp.MustCompile(`(100%!+)*x|x`)
	regexp.MustCompile(`%v|%v`)
	regexp.MustCompile(`[%-+]%[1]d`)
	regexp.MustCompile(`[%%]`)
	regexp.MustCompile(`^%s|%d$`)
	regexp.MustCompile(`%[0-9]+(?i)x`)
	regexp.MustCompile(`google.com/%s|yandex.ru/%d`)
	regexp.MustCompile(`[0-9]+%[0-9]`)
	regexp.MustCompile(`(%[2]*v{1,1})`)
	_, _ = regexp.Compile(`[a-z%!]{1}%%`)
}

func Literals(s string, xs []string, err error) error {
	_ = strings.Replace(s, "%s", "%s", 0)
	_ = strings.Replace(s, "%d", "%[1]d", -1)
	_ = strings.Index(s, "%!") >= 0
	_ = strings.ToLower(s) == "%v"
	_ = strings.Compare(s, "%!s(MISSING)%") == 0
	_ = strings.HasPrefix(s, "%d") && strings.HasPrefix(s, "%d")
	_ = strings.TrimLeft(s, "%d%d")
	_ = strings.Count(s, "%") > 0
	_ = filepath.Join("a/%s", "%d\\b")
	_ = flag.String("%s flag", "", "")
	_ = flag.Bool("-%d", false, "")
	_ = flag.Int("a=%v", 0, "")
	_ = fmt.Sprintf("%s", s)
	_ = fmt.Sprint(fmt.Sprintf("%[1]d%%", 1))
	_ = fmt.Errorf(s + "%w")
	_ = errors.New(fmt.Sprintf("%d%%", 1))
	_ = s+"%s" == s+"%s"
	_ = len(s+"%d") >= 0
	_ = len("%!v") == 0
	xs = append(xs, "%s")
	xs = append(xs, "%d")
	if s == "%v" {
	} else if s == "%v" {
	}
	switch s {
	case s + "%x", s + "%x":
	}
	switch {
	case s == "%q":
	case s == "%q":
	}
	if err == nil {
		return err
	}
	x := "%!" + s
	x = x + "%!d(string="
	_ = x
	return fmt.Errorf("%s")
}

func Comments() {
	// fmt.Printf("%d%%: %s\n", 1, "x"); if x == "%v" { return }
	// x := strings.Replace(s, "%s", "%d", -1)

	//TODO %s
	/* %!d(BADINDEX) is only text here */
}
