// Package ns_sync_local: values named sync with methods spelled like the package functions.
package ns_sync_local

type once struct{}

func (once) OnceFunc(f func()) func()          { return f }
func (once) OnceValue(f func() int) func() int { return f }

var sync once

func PkgVar(f func(), g func() int) int {
	sync.OnceFunc(f)()
	sync.OnceFunc(f)
	return sync.OnceValue(g)()
}

func Local(f func()) {
	sync := struct{ OnceFunc func(func()) func() }{}
	sync.OnceFunc(f)()
	sync.OnceFunc(f)
}

func Param(sync once, f func()) {
	sync.OnceFunc(f)()
}
