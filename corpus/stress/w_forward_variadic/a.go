package w_forward_variadic

type O func(*int)

func four() (int, int, O, O) { return 0, 0, nil, nil }

func v(a, b int, o ...O) {}

func F() { v(four()) }
