// Package fmt_dynamic hands non-constant format strings to the fmt / log / errors family in every call shape: conversions,
// calls without arguments, calls with several arguments, method calls, index expressions, parenthesised and concatenated forms.
package fmt_dynamic

import (
	"errors"
	"fmt"
	"log"
	"os"
)

type msg string

func (m msg) String() string { return string(m) }

func text() string               { return "t" }
func textf(a int, b string) string { return b }

var table = map[string]string{}

func Use(b []byte, m msg, s string, w *os.File) error {
	_ = fmt.Errorf(string(b))
	_ = fmt.Errorf(string("abc"))
	_ = fmt.Errorf(msg("abc").String())
	_ = fmt.Errorf(m.String())
	_ = fmt.Errorf(text())
	_ = fmt.Errorf(textf(1, "x"))
	_ = fmt.Errorf(table["k"])
	_ = fmt.Errorf((s))
	_ = fmt.Errorf(s + "!")
	_ = fmt.Sprintf(string(b))
	_ = fmt.Sprintf(text())
	_ = fmt.Sprintf(textf(1, s))
	fmt.Printf(string(b))
	fmt.Printf(text())
	fmt.Fprintf(w, string(b))
	fmt.Fprintf(w, text())
	log.Printf(string(b))
	log.Printf(text())
	log.Fatalf(textf(2, s))
	_ = errors.New(fmt.Sprintf(string(b)))
	_ = errors.New(fmt.Sprint(text()))
	return fmt.Errorf(func() string { return s }())
}
