// Package m2_exprs exercises the Expr-walker checkers of Model_Checkers2.v (literals, derefs, assertions, method expressions).
package m2_exprs

type S struct {
	f   int
	arr [3]int
	p   *S
}

func (s *S) PtrM()  {}
func (s S) ValM()   {}
func (s *S) Get() S { return *s }

type PS = *S
type Iface interface{ ValM() }

var (
	o1  = 0
	o2  = 00
	o3  = 017
	o4  = 0o17
	o5  = 0_7
	o6  = 08.5
	o7  = 0i
	o8  = 07i
	o9  = 0b1
	h1  = 0X1F
	h2  = 0x1f
	h3  = 0x1F
	h4  = 0xaB
	h5  = 0XaB
	h6  = 0x_aB_1
	h7  = 0b11 - 0
	h8  = 1_000
	h9  = 0xA
	h10 = 0Xa
	h11 = 0x1p-2
	h12 = 0Xap+1
	h13 = 100
	h14 = 0xABCDEFabcdef
	s1  = "0X1F"
	r1  = '0'
)

func Underef(p *S, pp **S, ps PS, a *[3]int, m *map[string]int, i *Iface, sl *[]int) {
	_ = (*p).f
	(*p).PtrM()
	(*p).ValM()
	_ = (*p).arr[0]
	_ = (*a)[1]
	_ = (**pp).f
	_ = (*pp).f
	_ = (*ps).f
	_ = (*m)["k"]
	_ = (*sl)[0]
	(*i).ValM()
	_ = ((*p)).f
	_ = (*(p)).f
	_ = (*p.p).f
	_ = (*p).Get().f
	_ = (*(*p).p).arr[0]
	f := (*p).PtrM
	f()
}

func Assert(x interface{}, y Iface, z error) {
	_ = x.(interface{})
	_ = y.(Iface)
	_ = y.(interface{ ValM() })
	_, _ = z.(error)
	_ = x.(Iface)
	switch x.(type) {
	}
	_ = (x).(interface{})
	_ = x.(any)
}

func MethodExpr(s S, p *S) {
	S.ValM(s)
	(*S).PtrM(p)
	(*S).PtrM(&s)
	(*S).ValM(nil)
	PS.PtrM(p)
	f := S.ValM
	f(s)
	(S).ValM(s)
	Iface.ValM(s)
	s.ValM()
	func(S) {}(s)
	(*S).Get(p).ValM()
}


func Weak(xs []int, ys [][]int, m map[int][]int, ps *[]int, i int) bool {
	_ = xs != nil && xs[0] == 1
	_ = xs == nil || xs[i] == 1
	_ = (xs != nil) && (xs[0] == 1)
	_ = xs != nil && len(xs) > 0 && xs[0] == 1
	_ = xs != nil || xs[0] == 1
	_ = nil != xs && xs[0] == 1
	_ = ys[0] != nil && ys[0][1] == 1
	_ = m[1] != nil && m[1][0] == 2
	_ = *ps != nil && (*ps)[0] == 1
	_ = xs != nil && func() bool { return xs[0] == 1 }()
	_ = xs != nil && ys[0][0] == 1
	return xs != nil && ys[xs[0]] != nil
}
