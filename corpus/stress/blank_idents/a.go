// Package blank_idents: the blank identifier wherever it is legal.
package blank_idents

import (
	_ "embed"
	"fmt"
)

var _ = fmt.Sprint

var _, _ = 1, 2

const _ = iota

type _ struct{ _ int }

type T struct {
	_    int
	_, _ string
	A    int
}

func _() {}

func (_ T) M(_ int, _ string) (_ int, _ error) { return 0, nil }

func (T) N(int, ...string) {}

func F(_ int, _ ...string) (_ int) {
	_ = 1
	_, _ = 1, 2
	for _ = range []int{} {
	}
	for _, _ = range []int{} {
	}
	for range []int{} {
	}
	var _ int
	var _, _ = fmt.Println()
	_, _ = fmt.Println()
	switch interface{}(nil).(type) {
	case int:
	}
	var xs []int
	_ = append(xs, 1)
	xs = append(xs, 1)
	_ = xs
	func(_ int) {}(1)
	return
}

type I interface {
	_hidden()
	M(_ int, _ string) (_ int, _ error)
}

func G[_ any, _ comparable](_ int) {}
