// Package ns_flag_import: a user package named flag with the standard API shape.
package ns_flag_import

import "stresslib/flag"

func Define() {
	_ = flag.String("-bad name", "", "")
	_ = flag.Bool("a=b", false, "")
	_ = *flag.Bool("deref", false, "")
	_ = *flag.Int("n", 0, "")
	var n int
	flag.IntVar(&n, " spaced", 0, "")
	fs := flag.NewFlagSet("x", flag.ContinueOnError)
	_ = fs.String("also bad", "", "")
	fs.IntVar(&n, "-n", 0, "")
	flag.Parse()
}
