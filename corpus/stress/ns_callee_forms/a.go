// Package ns_callee_forms is a C20 namesake stress package: callees spelled like the checkers' subjects but reached
// through an index expression (a table of functions, a slice of functions, an explicit instantiation of a generic
// helper) or through parentheses. An indexed callee can never be the builtin or the (non-generic) standard function.
package ns_callee_forms

type encoder func(dst []int, v ...int) []int

type sorter struct {
	Slice       []func(x any, less func(i, j int) bool)
	SliceStable map[string]func(x any, less func(i, j int) bool)
}

type joiner struct {
	Join []func(elem ...string) string
}

type fataler struct {
	Fatal  []func(v ...any)
	Fatalf map[int]func(format string, v ...any)
}

type compiler struct {
	MustCompile []func(s string) *int
	Compile     []func(s string) (*int, error)
}

func cleanup() {}

func Table(kind string, xs, ys []int) []int {
	append := map[string]encoder{"raw": func(dst []int, v ...int) []int { return dst }}
	ys = append[kind](xs, 1)
	xs = append[kind](xs, 1)
	xs = append[kind](xs, 2)
	for range xs {
		ys = append["raw"](ys, xs...)
	}
	return ys
}

func Funcs(xs, ys []int) []int {
	append := []encoder{func(dst []int, v ...int) []int { return dst }}
	ys = (append[0])(xs, 1)
	xs = append[0](xs, 1)
	xs = append[0](xs, 2)
	return ys
}

func Sorted(sort sorter, xs []int, keys []string) {
	sort.Slice[0](xs, func(i, j int) bool { return keys[i] < keys[j] })
	sort.SliceStable["s"](xs, func(i, j int) bool { return keys[i] < keys[j] })
	(sort.Slice[0])(xs, func(i, j int) bool { return keys[i] < keys[j] })
}

func Joined(filepath joiner) string {
	return filepath.Join[0]("a/b", "c") + filepath.Join[0]("a\\b", "c")
}

func Exits(log fataler, err error) {
	defer cleanup()
	if err != nil {
		log.Fatal[0](err)
	}
	log.Fatalf[1]("%v", err)
}

func Patterns(regexp compiler) {
	_ = regexp.MustCompile[0]("a[aa]")
	_ = regexp.MustCompile[0]("^.*$|^foo")
	_, _ = regexp.Compile[0]("[0-9]+?[[:digit:]]")
}

func copyOf[T any](dst, src []T) int { return 0 }

func Instantiated(xs []int, n int) int {
	copy := copyOf[int]
	new := func(n int) *int { return &n }
	k := *new(n)
	return copy(xs, xs) + (copy)(xs, xs[:]) + k
}
