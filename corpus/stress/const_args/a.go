// Package const_args: string arguments that are constants but not literals: named constants, concatenations,
// parenthesised literals, typed constants, constant expressions.
package const_args

import (
	"flag"
	"fmt"
	"path/filepath"
	"regexp"
	"strings"
)

const (
	domain     = `google.com|yandex.ru`
	dup        = "x|x"
	digits     = "[0-9]+"
	badName    = "bad name"
	hyphen     = "-h"
	sep        = "a/b"
	percent    = "%s"
	nested     = `(a+)*`
	typed  string = "k=v"
)

func Regexps() {
	regexp.MustCompile(domain)
	regexp.MustCompile(`google.` + `com`)
	regexp.MustCompile((`yandex.ru`))
	regexp.MustCompile(dup)
	regexp.MustCompile("x" + "|x")
	regexp.MustCompile(("y|y"))
	regexp.MustCompile(digits)
	regexp.MustCompile("[0-9]" + "+")
	regexp.MustCompile(("[a-z0-9A-Z_]"))
	regexp.MustCompile(nested)
	regexp.MustCompile((`(b*)+`))
	regexp.MustCompile(`(c` + `+)+`)
	_, _ = regexp.Compile(domain + dup)
	_, _ = regexp.Compile((domain))
}

func Flags() {
	_ = flag.String(badName, "", "")
	_ = flag.String("also "+"bad", "", "")
	_ = flag.String((" x"), "", "")
	_ = flag.Bool(hyphen, false, "")
	_ = flag.Int(typed, 0, "")
	var n int
	flag.IntVar(&n, (badName), 0, "")
	flag.IntVar(&n, "-"+"n", 0, "")
}

func Strings(s string) string {
	_ = filepath.Join(sep, (sep), "c"+"/d")
	_ = strings.Replace(s, percent, (percent), 0)
	_ = strings.Replace(s, "a"+"b", ("c"), -1)
	_ = strings.Index(s, (sep)) >= 0
	_ = strings.Compare(s, sep+sep) == 0
	_ = strings.TrimLeft(s, ("abca"))
	_ = strings.TrimLeft(s, "ab"+"ca")
	_ = strings.NewReplacer(sep, "x", (sep), "y")
	_ = fmt.Sprintf(percent, s)
	_ = fmt.Sprintf(("%s"), s)
	_ = fmt.Sprintf("%"+"s", s)
	_ = fmt.Errorf(percent)
	return strings.ToLower(s) + fmt.Sprintf("\""+percent+"\"", s)
}
