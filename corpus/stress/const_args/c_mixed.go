package const_args

import "regexp"

var (
	reA = regexp.MustCompile(`ok`)
	_   = regexp.MustCompilePOSIX(`(c*)*z|z`)
)

func Mixed(s string) bool {
	ok, _ := regexp.MatchString(`(d+)+w|w`, s)
	return ok && reA.MatchString(s)
}
