package const_args

import (
	"regexp"
	"strings"
)

// this file uses only the other entry points of the regexp API family (no Compile / MustCompile)
func Posix(s string, b []byte) bool {
	regexp.MustCompilePOSIX(dup)
	regexp.MustCompilePOSIX(`(a+)*` + `x|x`)
	_, _ = regexp.CompilePOSIX((nested))
	ok1, _ := regexp.MatchString(`(b*)+y|y`, s)
	ok2, _ := regexp.Match(dup, b)
	ok3, _ := regexp.MatchReader(`[a-zA-Z0-9_]google.com`, strings.NewReader(s))
	return ok1 || ok2 || ok3
}
