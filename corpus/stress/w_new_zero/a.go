package w_new_zero

func new() *int { return nil }

func F() int { return *new() }
