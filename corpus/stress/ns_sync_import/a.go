// Package ns_sync_import: a user package named sync (import path stresslib/sync), plain and renamed.
package ns_sync_import

import (
	"stresslib/sync"
	realsync "sync"
)

func User(f func(), g func() int) int {
	sync.OnceFunc(f)()
	sync.OnceFunc(f)
	var mu sync.Mutex
	mu.Lock()
	mu.Unlock()
	var m sync.Map
	if _, ok := m.Load(1); ok {
		m.Delete(1)
	}
	return sync.OnceValue(g)()
}

func Real(f func()) {
	realsync.OnceFunc(f)()
}
