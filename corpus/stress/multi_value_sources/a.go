// Package multi_value_sources: every declaration / assignment form x every multi-value source
// (call, map index, type assertion, channel receive, range) x {var, :=, =} x {local, package level}.
package multi_value_sources

var (
	m  = map[string]int{}
	ch = make(chan int, 1)
	x  interface{} = 1
)

func two() (int, bool)            { return 0, false }
func three() (int, string, error) { return 0, "", nil }

// package level
var pv, pok = m["k"]
var pt, ptok = x.(int)
var pr, prok = <-ch
var pc, pcok = two()
var p1, p2, p3 = three()
var _, pblank = m["k"]
var pvt, pokt interface{} = two()
var (
	gv, gok = m["g"]
	ga, gb  = 1, 2
	gs      = "s"
	_, _    = x.(string)
)

func Local(len int, new string) (r int) {
	var v, ok = m["k"]
	var t, tok = x.(int)
	var c, cok = <-ch
	var f, fok = two()
	var a, b, e = three()
	var _, ok2 = m["k"]
	var _, _ = x.(string)
	var tv, tb interface{} = x.(bool)
	var (
		iv, iok = m["i"]
		one     = 1
		u, w    = 1, "w"
	)
	v2, ok3 := m["k"]
	t2, tok2 := x.(int)
	c2, cok2 := <-ch
	f2, fok2 := two()
	a2, b2, e2 := three()
	_, ok4 := m["k"]
	v, ok = m["z"]
	t, tok = x.(int)
	c, cok = <-ch
	f, fok = two()
	a, b, e = three()
	_, ok = m["k"]
	_, _ = x.(int)
	for k, val := range m {
		_, _ = k, val
	}
	for k := range m {
		_ = k
	}
	for i, s := range "str" {
		_, _ = i, s
	}
	for v := range ch {
		_ = v
		break
	}
	var k2 string
	var val2 int
	for k2, val2 = range m {
	}
	for range m {
	}
	for i := range 3 {
		_ = i
	}
	if v, ok := m["if"]; ok {
		_ = v
	}
	if t, ok := x.(string); ok {
		_ = t
	}
	if c, ok := <-ch; ok {
		_ = c
	}
	switch v, ok := m["sw"]; {
	case ok:
		_ = v
	}
	switch y := x.(type) {
	case int:
		_ = y
	}
	select {
	case v, ok := <-ch:
		_, _ = v, ok
	case v := <-ch:
		_ = v
	case v, ok = <-ch:
	default:
	}
	func() {
		var cap, ok = m["closure"]
		_, _ = cap, ok
	}()
	_, _, _, _, _, _, _, _, _, _ = v, ok, t, tok, c, cok, f, fok, a, b
	_, _, _, _, _, _, _, _, _, _ = e, ok2, tv, tb, iv, iok, one, u, w, v2
	_, _, _, _, _, _, _, _, _, _ = ok3, t2, tok2, c2, cok2, f2, fok2, a2, b2, e2
	_, _, _, _, _ = ok4, k2, val2, len, new
	return
}
