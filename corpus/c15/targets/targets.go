// Package targets holds one trigger per version-gated rule in every receiver/operand type variant
// (pointer and value, struct field and package variable), so that a gate that covers only one
// variant is noticed.
package targets

import (
	"strings"
	"sync"
	"time"
)

type registry struct {
	byValue sync.Map
	byPtr   *sync.Map
}

var global sync.Map

func loadDeleteField(r *registry, k string) {
	v1, ok1 := r.byValue.Load(k)
	if ok1 {
		r.byValue.Delete(k)
		_ = v1
	}
	v2, ok2 := r.byPtr.Load(k)
	if ok2 {
		r.byPtr.Delete(k)
		_ = v2
	}
	v3, ok3 := global.Load(k)
	if ok3 {
		global.Delete(k)
		_ = v3
	}
}

func loadDeleteLocal(k string) {
	var m sync.Map
	pm := &m
	v1, ok1 := m.Load(k)
	if ok1 {
		m.Delete(k)
		_ = v1
	}
	v2, ok2 := pm.Load(k)
	if ok2 {
		pm.Delete(k)
		_ = v2
	}
}

type stamp struct {
	at  time.Time
	ptr *time.Time
}

func units(t time.Time, pt *time.Time, s stamp) (int64, int64, int64, int64, int64, int64) {
	return t.Unix() / 1000, pt.Unix() / 1000, s.at.Unix() / 1000,
		t.UnixNano() * 1000, pt.UnixNano() * 1000, s.ptr.UnixNano() * 1000
}

func cut(s, sep string) (string, string) {
	var host, port string
	i := strings.Index(s, sep)
	host, port = s[:i], s[i+1:]
	if j := strings.Index(s, sep); j != -1 {
		host = s[:j]
		port = s[j+1:]
	}
	return host, port
}

func once(f func()) {
	sync.OnceFunc(f)()
	sync.OnceFunc(f)
}

const perm = 0755
