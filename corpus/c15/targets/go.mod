module targets

go 1.21
