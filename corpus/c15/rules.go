//go:build ruleguard
// +build ruleguard

package gorules

import "github.com/quasilyte/go-ruleguard/dsl"

// userUnixMilli is gated on Go 1.17 exactly like the embedded timeExprSimplify rule.
func userUnixMilli(m dsl.Matcher) {
	m.Match(`$t.Unix() / 1000`).
		Where(m.GoVersion().GreaterEqThan("1.17") && m["t"].Type.Is(`time.Time`)).
		Report(`user rule: use $t.UnixMilli()`)
}

// userAlways has no gate and recommends nothing new.
func userAlways(m dsl.Matcher) {
	m.Match(`$t.Unix() / 60`).
		Where(m["t"].Type.Is(`time.Time`)).
		Report(`user rule: division of Unix()`)
}
