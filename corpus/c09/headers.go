package c09

// Suggestion-producing checkers on code that stands in statement headers (if / for / switch conditions, init and post
// statements, range expressions) with composite-literal operands: a replacement that drops parentheses leaves a bare
// composite literal where the grammar does not allow one.
type hPoint struct{ x, y int }

var hOrigin = hPoint{}

func hIfCond(q hPoint) bool {
	if !(q == hPoint{1, 2}) {
		return true
	}
	return false
}

func hIfInit(q hPoint) bool {
	if differ := !(q == hPoint{3, 4}); differ {
		return true
	}
	return false
}

func hForCond(q hPoint) hPoint {
	for !(q == hPoint{}) {
		q = hOrigin
	}
	return q
}

func hSwitchTag(q hPoint) int {
	switch !(q == hPoint{5, 6}) {
	case true:
		return 1
	}
	return 0
}

func hSwitchInit(q hPoint) int {
	switch differ := !(q == hPoint{7, 8}); differ {
	case true:
		return 1
	}
	return 0
}

func hCaseExpr(q hPoint) int {
	switch {
	case !(q == hPoint{9, 10}):
		return 1
	}
	return 0
}

func hNewDerefFor(p hPoint) int {
	n := 0
	for p != *new(hPoint) {
		p = hPoint{}
		n++
	}
	return n
}

func hNewDerefSwitch(p hPoint) int {
	switch p == *new(hPoint) {
	case true:
		return 1
	}
	return 0
}
