package c09

import (
	"fmt"
	"strings"
)

// Defined (named) types in the operand positions of fix-carrying rules: a fix must keep the type of
// the expression it replaces.
type Label string
type Blob []byte
type Count int

func sprintLabel(l Label) string   { return fmt.Sprint(l) }
func sprintfLabel(l Label) string  { return fmt.Sprintf("%s", l) }
func sprintStr(s string) string    { return fmt.Sprint(s) }
func labels(l Label) []string      { return []string{fmt.Sprint(l)} }
func emptyLabel(l Label) bool      { return len(l) == 0 }
func indexLabel(l Label) bool      { return strings.Index(string(l), "x") >= 0 }
func blobEq(a, b Blob) bool        { return string(a) == string(b) }
func blobEmpty(a Blob) bool        { return string(a) == "" }
func count(c Count) Count          { c = c + 1; return c }
func unsliceBlob(b Blob) Blob      { return b[:] }
func unsliceLabel(l Label) Label   { return l[:] }
func compareLabel(a, b Label) bool { return strings.Compare(string(a), string(b)) == 0 }
