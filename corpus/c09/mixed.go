package c09

import (
	"bytes"
	"strings"
)

// A rule with a Suggest template matches first and a report-only rule of the same group matches
// later in the same file (and the other way round further down): a diagnostic's fix must be its own.

func mixedHasSep(s, sep string) bool {
	return strings.Index(s, sep) >= 0
}

func mixedDashes(s string) string {
	return strings.Replace(s, "_", "-", -1)
}

func mixedLenOf(b []byte) int {
	return len(string(b))
}

func mixedCopy(dst []byte, s string) int {
	return copy(dst, []byte(s))
}

func mixedBytesHas(b, sep []byte) bool {
	return bytes.Index(b, sep) != -1
}

func mixedBytesAll(b []byte) []byte {
	return bytes.Replace(b, []byte("_"), []byte("-"), -1)
}
