package c09

import "bytes"

// The same named type written with two spellings in two files of one package (see spell2.go): a suggestion that
// quotes the type must use the spelling of the file it is made for.
func spellFirst() int {
	b := *new(bytes.Buffer)
	return b.Len()
}
