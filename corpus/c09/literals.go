package c09

// Number literals with a redundant leading zero that are NOT integer octal literals.
var (
	f1 = 00.75
	f2 = 01.5e3
	i1 = 010i
	o1 = 0600
	h1 = 0X1F
	h2 = 0x1f
)
