package c09

import (
	"bytes"
	"fmt"
	"io"
	"strings"
	"time"
)

// Operand shapes whose textual substitution into a template needs parentheses (unary operators,
// composite literals behind &, conversions, binary expressions, function literals) or changes how the
// replacement parses.
type pStringer struct{ s string }

func (p *pStringer) String() string { return p.s }

type vStringer struct{ s string }

func (v vStringer) String() string { return v.s }

func sprintAddrLit(s string) string        { return fmt.Sprint(&pStringer{s}) }
func sprintValueLit(s string) string       { return fmt.Sprint(vStringer{s}) }
func sprintDeref(p *vStringer) string      { return fmt.Sprint(*p) }
func sprintfAddrLit(s string) string       { return fmt.Sprintf("%s", &pStringer{s}) }
func sprintConv(b []byte) string           { return fmt.Sprint(string(b)) }
func sprintConcat(a, b string) string      { return fmt.Sprint(a + b) }
func lenOfConcat(a, b string) bool         { return len(a+b) == 0 }
func emptyDeref(p *string) bool            { return len(*p) == 0 }
func unixOfDeref(pt *time.Time) int64      { return (*pt).Unix() / 1000 }
func unixOfAddr(t time.Time) int64         { return (&t).Unix() / 1000 }
func sliceOfDeref(p *[]int) []int          { return (*p)[:] }
func assignDeref(p *int)                   { *p = *p + 1 }
func assignIndexed(xs []int, f func() int) { xs[0] = xs[0] + f() }

// A template that is looser than the pattern it replaces, inside a context that binds tighter, and an operand
// copied in front of a selector.
func joinSliced(a, b string) string         { return strings.Join([]string{a, b}, "")[1:] }
func joinGlueIndexed(a, b, g string) byte   { return strings.Join([]string{a, b}, g)[0] }
func sprintConcatSliced(a, b string) string { return fmt.Sprint(a + b)[1:] }
func writeThroughDeref(pw **bytes.Buffer, s string) {
	io.WriteString(*pw, s)
}
