package c09

import (
	"encoding/json"
	"io"
	str "strings"
)

// Shapes on which a suggestion quoted in a message (or a fix built from a template), substituted
// textually, changes how the code parses or type-checks.

type qT struct{ v int }

func (t *qT) V() int { return t.v }

type qP *qT

type qPoint struct{ x, y int }

func qIdent[T any](x T) T { return x }

func qChanConv(c chan int) <-chan int { return (<-chan int)(c) }

func qDoubleParen(p *qT) *qT { return (*qT)(p) }

func qNewDerefInIf(p qPoint) bool {
	if p == *new(qPoint) {
		return true
	}
	return false
}

func qUnlambdaGeneric() func(int) int {
	return func(x int) int { return qIdent(x) }
}

func qUnderefDefinedPointer(k qP) int { return (*k).v }

func qRenamedImport(s, sub string) bool { return str.Index(s, sub) >= 0 }

func qRawMessage(w io.Writer, raw json.RawMessage) {
	w.Write([]byte(raw))
}

// Generic types in the positions typeUnparen looks at, and multi-value re-assignments.
type qBox[T any] struct{ v T }

func (b *qBox[T]) Get() T { return b.v }

type qPair[K comparable, V any] struct {
	k K
	v V
}

func qGenericPointerConv(p *qBox[int]) *qBox[int] { return (*qBox[int])(p) }

func qGenericMethodExpr() func(*qBox[int]) int { return (*qBox[int]).Get }

func qGenericPairConv(p *qPair[string, int]) *qPair[string, int] { return (*qPair[string, int])(p) }

func qGenericParenType(x qBox[int]) qBox[int] { return x }

func qMultiReassign(w io.Writer, b []byte) (int, error) {
	var n int
	var err error
	if n, err = w.Write(b); err != nil {
		return 0, err
	}
	return n, err
}

// underef on operands that are themselves unary expressions: the quoted simplification drops the parentheses.
func qUnderefAddr(x qT) int { return (*&x).v }

func qUnderefRecv(ch chan *qT) int { return (*<-ch).v }

// the same with the operand parenthesised by the user: the parentheses must survive in the suggestion
func qUnderefParenAddr(x qT) int { return (*(&x)).v }

func qUnderefParenRecv(ch chan *qT) int { return (*(<-ch)).v }

func qUnderefParenIdent(k *qT) int { return (*(k)).v }
