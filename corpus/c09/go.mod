module c09

go 1.20
