package c09

import "strings"

func marker(int) {}

// The statements between the Index call and the slicing are unrelated to the rewrite and must
// survive the fix.
func cutAssign(s string) (string, string) {
	var a, b string
	i := strings.Index(s, ":")
	marker(1)
	a, b = s[:i], s[i+1:]
	return a, b
}

func cutTwoAssign(s string) (string, string) {
	var a, b string
	i := strings.Index(s, ":")
	marker(2)
	a = s[:i]
	marker(3)
	b = s[i+1:]
	return a, b
}

func cutIf(s string) (string, string) {
	var a, b string
	if i := strings.Index(s, ":"); i != -1 {
		marker(4)
		a, b = s[:i], s[i+1:]
		marker(5)
	}
	return a, b
}

func cutIfGe(s string) (string, string) {
	var a, b string
	if i := strings.Index(s, ":"); i >= 0 {
		marker(6)
		a = s[:i]
		marker(7)
		b = s[i+1:]
		marker(8)
	}
	return a, b
}
