package c09

import "strings"

func mlRun(f func() error) error { return f() }

func mlStep(s string) error { _ = s; return nil }

// The quoted replacement spans several lines (a function literal with statements).
func mlLong(name string) error {
	var err error
	if err = mlRun(func() error {
		if e := mlStep(name); e != nil {
			return e
		}
		return mlStep(strings.ToUpper(name) + "a  b")
	}); err != nil {
		return err
	}
	return err
}

// A lambda whose body is a call with a multi-line argument.
var mlLambda = func(s string) bool {
	return strings.Contains(s, strings.Map(func(r rune) rune {
		r++
		return r
	}, "x"))
}

func mlDeref(p *struct {
	a int
	b string
}) int {
	return (*p).a
}
