package c09

// Parameter lists whose neighbouring parameters have identical types without being spelled alike, variadic
// parameters, function-typed parameters and results; every declared function is also called, so a quoted
// signature that changes what callers may pass breaks the package.
func pSum(base []int, rest ...int) int {
	for _, r := range rest {
		base = append(base, r)
	}
	return len(base)
}

func pUseSum() int { return pSum(nil, 1, 2, 3) + pSum([]int{1}) }

func pAnyPair(a interface{}, b any) bool { return a == b }

func pBytePair(a []byte, b []uint8) int { return len(a) + len(b) }

func pUsePairs() (bool, int) { return pAnyPair(1, "x"), pBytePair(nil, nil) }

func pCombinable(a int, b int, s string) int { return a + b + len(s) }

func pResults(a int, b int) (x int, y int) { return a, b }

func pFuncParam(f func(a int, b int) int, g func(a int, b int) int) int { return f(1, 2) + g(3, 4) }

func pUseCombinable() int {
	x, y := pResults(1, 2)
	return pCombinable(x, y, "s") + pFuncParam(func(a int, b int) int { return a + b }, func(a, b int) int { return a - b })
}

type pRecv struct{}

func (pRecv) Method(a string, b string, rest ...string) int { return len(a) + len(b) + len(rest) }

func pUseMethod() int { return pRecv{}.Method("a", "b", "c", "d") }
