package c09

import stdbytes "bytes"

func spellSecond() int {
	b := *new(stdbytes.Buffer)
	return b.Len()
}

func spellSecondReader() int {
	r := *new(stdbytes.Reader)
	return r.Len()
}
